//! Generic bounded-exhaustive driver: enumerate → execute every case on the real compiler →
//! compare with the reference → group discrepancies by canonical key → known findings / violations →
//! evidence + replay files (DESIGN §2.5–2.7).
use crate::common::fnv;
use rayon::prelude::*;
use serde::{de::DeserializeOwned, Serialize};
use serde_json::json;
use std::collections::{BTreeMap, BTreeSet, HashSet};
use std::time::Instant;

#[derive(Clone, Copy, PartialEq, Eq, Debug)]
pub enum Tier {
    Quick,
    Thorough,
}
impl Tier {
    pub fn name(&self) -> &'static str {
        match self {
            Tier::Quick => "quick",
            Tier::Thorough => "thorough",
        }
    }
    pub fn thorough(&self) -> bool {
        *self == Tier::Thorough
    }
}

#[derive(Clone, Debug)]
pub struct Disc {
    pub key: String,
    pub detail: String,
}
impl Disc {
    pub fn new(key: impl Into<String>, detail: impl Into<String>) -> Self {
        Disc { key: key.into(), detail: detail.into() }
    }
}

#[derive(Clone, Debug, Default)]
pub struct CaseResult {
    pub discs: Vec<Disc>,
    /// the observation contained at least one thing the property talks about
    pub nontrivial: bool,
    /// class of observation, to count distinct outcomes (vacuity guard)
    pub outcome: String,
    /// case could not be judged (e.g. compile Err on supported input); reason class
    pub skipped: Option<String>,
}
impl CaseResult {
    pub fn skip(reason: impl Into<String>) -> Self {
        let r = reason.into();
        CaseResult { discs: vec![], nontrivial: false, outcome: format!("skipped:{r}"), skipped: Some(r) }
    }
}

pub struct Opts {
    pub tier: Tier,
    pub seed: u64,
    pub replay: Option<String>,
    pub verif_dir: String,
    pub max_cases: Option<usize>,
}

pub trait Prop: Sync {
    type Case: Serialize + DeserializeOwned + Send + Sync + Clone;
    fn id(&self) -> &'static str;
    /// every case of the bounded space, simplest first; `edges` may be bumped for extra enumeration edges
    fn enumerate(&self, tier: Tier, seed: u64) -> Vec<Self::Case>;
    fn check(&self, case: &Self::Case) -> CaseResult;
    fn rule(&self) -> String;
    fn assumptions(&self) -> Vec<String> {
        vec![]
    }
    /// extra coverage keys
    fn extra(&self, _tier: Tier) -> serde_json::Value {
        json!({})
    }
    /// whether the tier's space was enumerated completely (no cap)
    fn exhaustive(&self, _tier: Tier) -> bool {
        true
    }
    /// oracle self-tests; returns number of self-test evaluations, Err = machinery failure
    fn selftest(&self) -> Result<u64, String> {
        Ok(0)
    }
    /// properties about determinism: a discrepancy that does not reproduce is itself a violation
    fn nondeterminism_is_violation(&self) -> bool {
        false
    }
}

#[derive(Clone, Debug)]
pub struct Known {
    pub property: String,
    pub key: String,
    pub what: String,
}

pub fn glob_match(pat: &str, s: &str) -> bool {
    // '*' matches any (possibly empty) substring
    let parts: Vec<&str> = pat.split('*').collect();
    if parts.len() == 1 {
        return pat == s;
    }
    let mut pos = 0usize;
    for (i, p) in parts.iter().enumerate() {
        if i == 0 {
            if !s.starts_with(p) {
                return false;
            }
            pos = p.len();
        } else if i == parts.len() - 1 {
            return s.len() >= pos + p.len() && s[pos..].ends_with(p);
        } else {
            match s[pos..].find(p) {
                Some(k) => pos += k + p.len(),
                None => return false,
            }
        }
    }
    true
}

pub fn load_known(verif_dir: &str) -> Vec<Known> {
    let path = format!("{verif_dir}/known_findings.txt");
    let mut v = vec![];
    if let Ok(s) = std::fs::read_to_string(&path) {
        for line in s.lines() {
            let line = line.trim();
            if !line.starts_with("known:") {
                continue; // "fixed:" lines and comments suppress nothing
            }
            let mut property = String::new();
            let mut key = String::new();
            let mut what = String::new();
            for (i, part) in line["known:".len()..].split(" ## ").enumerate() {
                let part = part.trim();
                if i == 0 {
                    property = part.trim_start_matches("property=").to_string();
                } else if let Some(k) = part.strip_prefix("key=") {
                    key = k.to_string();
                } else if let Some(w) = part.strip_prefix("what=") {
                    what = w.to_string();
                }
            }
            if !property.is_empty() && !key.is_empty() {
                v.push(Known { property, key, what });
            }
        }
    }
    v
}

pub fn find_known<'a>(known: &'a [Known], prop: &str, key: &str) -> Option<&'a Known> {
    known.iter().find(|k| k.property == prop && glob_match(&k.key, key))
}

fn to_val<T: Serialize>(c: &T) -> serde_json::Value {
    serde_json::to_value(c).unwrap_or_else(|_| serde_json::Value::String(serde_json::to_string(c).unwrap_or_default()))
}

pub struct Report {
    pub exit: i32,
}

pub fn run<P: Prop>(p: &P, opts: &Opts) -> i32 {
    let id = p.id();
    let t0 = Instant::now();
    crate::common::install_panic_hook();
    if let Some(path) = &opts.replay {
        return replay(p, path);
    }
    // ends the run (machinery exit, never a verdict) when the subject does not return: checks that run the compiler
    // in-process have no other defence against a change that makes it loop forever
    let _watchdog = stall_watchdog(id);
    let phase = InFlight::enter(&"oracle self-test");
    // a self-test that fails because the *compiler* no longer accepts a designed base input ("COMPILER:" prefix) is an
    // observation about the subject, not a defect of the machinery: the run goes on and ends with a violation
    let mut base_failure: Option<String> = None;
    let selftests = match p.selftest() {
        Ok(n) => n,
        Err(e) if e.starts_with("COMPILER:") => {
            base_failure = Some(e);
            0
        }
        Err(e) => {
            eprintln!("MACHINERY: oracle self-test failed for {id}: {e}");
            return 2;
        }
    };
    drop(phase);
    // enumeration may include batch compilations by rustc (C01, C03, C07): its own, longer limit
    let phase = InFlight::enter(&"enumeration");
    ENUMERATING.store(true, std::sync::atomic::Ordering::SeqCst);
    let mut cases = p.enumerate(opts.tier, opts.seed);
    ENUMERATING.store(false, std::sync::atomic::Ordering::SeqCst);
    drop(phase);
    let mut capped = false;
    if let Some(m) = opts.max_cases {
        if cases.len() > m {
            cases.truncate(m);
            capped = true;
        }
    }
    let n = cases.len();
    eprintln!("[{id}] {} cases enumerated in {:.1}s", n, t0.elapsed().as_secs_f64());
    let t1 = Instant::now();
    // evaluate
    let results: Vec<Result<(CaseResult, u64), String>> = cases
        .par_iter()
        .map(|c| {
            let h = fnv(&serde_json::to_string(c).unwrap_or_default());
            let _in_flight = InFlight::enter(c);
            match crate::common::guarded(|| p.check(c)) {
                Ok(r) => Ok((r, h)),
                Err((m, l)) => Err(format!("harness panic at {l}: {m}")),
            }
        })
        .collect();
    eprintln!("[{id}] evaluated in {:.1}s", t1.elapsed().as_secs_f64());
    let mut states: HashSet<u64> = HashSet::new();
    let mut outcomes: BTreeMap<String, u64> = BTreeMap::new();
    let mut skipped: BTreeMap<String, u64> = BTreeMap::new();
    let mut nontrivial_states: HashSet<u64> = HashSet::new();
    let mut by_key: BTreeMap<String, (usize, String, u64)> = BTreeMap::new(); // key -> (first case idx, detail, count)
    for (i, r) in results.iter().enumerate() {
        match r {
            Err(e) => {
                eprintln!("MACHINERY: {e}\ncase: {}", serde_json::to_string(&cases[i]).unwrap_or_default());
                return 2;
            }
            Ok((r, h)) => {
                states.insert(*h);
                *outcomes.entry(r.outcome.clone()).or_default() += 1;
                if let Some(s) = &r.skipped {
                    *skipped.entry(s.clone()).or_default() += 1;
                }
                if r.nontrivial {
                    nontrivial_states.insert(*h);
                }
                for d in &r.discs {
                    let e = by_key.entry(d.key.clone()).or_insert((i, d.detail.clone(), 0));
                    e.2 += 1;
                }
            }
        }
    }
    // confirm every witness twice (determinism of the verdict)
    let keys_idx: Vec<(&String, usize)> = by_key.iter().map(|(k, v)| (k, v.0)).collect();
    let reexec = (keys_idx.len() * 2) as u64;
    let bad: Vec<String> = keys_idx
        .par_iter()
        .filter_map(|(key, idx)| {
            for _ in 0..2 {
                match crate::common::guarded(|| p.check(&cases[*idx])) {
                    Ok(r) => {
                        if !r.discs.iter().any(|d| &d.key == *key) {
                            return Some(format!("discrepancy {key} did not reproduce on re-execution (non-determinism in harness or subject)"));
                        }
                    }
                    Err((m, l)) => return Some(format!("harness panic on re-execution at {l}: {m}")),
                }
            }
            None
        })
        .collect();
    if let Some(b) = bad.first() {
        if p.nondeterminism_is_violation() {
            eprintln!("[{id}] note: {} discrepancies did not reproduce identically on re-execution — for this property that instability is itself the violation", bad.len());
        } else {
            eprintln!("MACHINERY: {b}");
            return 2;
        }
    }
    let known = load_known(&opts.verif_dir);
    let mut violations = vec![];
    let mut known_hits: BTreeMap<String, (String, u64)> = BTreeMap::new();
    for (key, (idx, detail, count)) in by_key.iter() {
        if let Some(k) = find_known(&known, id, key) {
            let e = known_hits.entry(k.key.clone()).or_insert((k.what.clone(), 0));
            e.1 += count;
        } else {
            violations.push((key.clone(), *idx, detail.clone(), *count));
        }
    }
    for (k, (what, cnt)) in &known_hits {
        println!("KNOWN-FINDING: property={id} {what} [key={k}; {cnt} occurrences in this run]");
    }
    let replay_dir = format!("{}/replays/{id}", opts.verif_dir);
    let mut vio_samples = vec![];
    if !violations.is_empty() {
        let _ = std::fs::create_dir_all(&replay_dir);
    }
    for (n, (key, idx, detail, count)) in violations.iter().enumerate() {
        let path = format!("{replay_dir}/{:016x}.json", fnv(key));
        let doc = json!({"property": id, "key": key, "detail": detail, "occurrences": count, "case": to_val(&cases[*idx])});
        let _ = std::fs::write(&path, serde_json::to_string_pretty(&doc).unwrap());
        if n < 40 {
            println!("VIOLATION property={id} replay={path}");
            println!("  key: {key}");
            println!("  detail: {}", detail.lines().next().unwrap_or(""));
        }
        if n < 5 {
            vio_samples.push(json!({"key": key, "detail": detail}));
        }
    }
    if violations.len() > 40 {
        println!("... {} more distinct violation keys (replays written)", violations.len() - 40);
    }
    if let Some(e) = &base_failure {
        let _ = std::fs::create_dir_all(&replay_dir);
        let path = format!("{replay_dir}/base-input.json");
        let doc = json!({"property": id, "key": "base|designed-input-not-compiled-cleanly", "detail": e});
        let _ = std::fs::write(&path, serde_json::to_string_pretty(&doc).unwrap());
        println!("VIOLATION property={id} replay={path}");
        println!("  key: base|designed-input-not-compiled-cleanly");
        println!("  detail: {}", e.lines().next().unwrap_or(""));
    }
    // samples: rotate by seed
    let mut samples = vec![];
    if n > 0 {
        let want = 4usize.min(n);
        for k in 0..want {
            let idx = ((opts.seed as usize).wrapping_mul(7919).wrapping_add(k * (n / want).max(1))) % n;
            samples.push(json!({"case": to_val(&cases[idx]), "outcome": results[idx].as_ref().map(|r| r.0.outcome.clone()).unwrap_or_default()}));
        }
    }
    let exhaustive = p.exhaustive(opts.tier) && !capped;
    let mut coverage = json!({
        "states": states.len(),
        "transitions": n as u64 + reexec,
        "traces_validated_against_impl": n,
        "evaluations": n,
        "distinct_nontrivial": nontrivial_states.len(),
        "distinct_outcomes": outcomes.len(),
        "outcome_histogram": outcomes,
        "skipped": skipped,
        "rule": p.rule(),
        "exhaustive": exhaustive,
        "capped": capped,
        "oracle_selftest_evaluations": selftests,
        "distinct_discrepancy_keys": by_key.len(),
        "known_finding_keys_hit": known_hits.len(),
        "violation_keys": violations.len(),
        "violation_samples": vio_samples,
        "samples": samples,
    });
    if let (Some(a), Some(b)) = (coverage.as_object_mut(), p.extra(opts.tier).as_object()) {
        for (k, v) in b {
            a.insert(k.clone(), v.clone());
        }
    }
    let ev = json!({
        "property_id": id,
        "tier": opts.tier.name(),
        "seed": opts.seed,
        "level": "model_checking",
        "coverage": coverage,
        "assumptions": p.assumptions(),
        "wall_s": t0.elapsed().as_secs_f64(),
        "violations": violations.len(),
    });
    let evdir = format!("{}/evidence", opts.verif_dir);
    let _ = std::fs::create_dir_all(&evdir);
    if let Err(e) = std::fs::write(format!("{evdir}/{id}.json"), serde_json::to_string_pretty(&ev).unwrap()) {
        eprintln!("MACHINERY: cannot write evidence: {e}");
        return 2;
    }
    eprintln!(
        "[{id}] states={} evaluated={} nontrivial={} outcomes={} keys={} known={} violations={} wall={:.1}s",
        states.len(),
        n,
        nontrivial_states.len(),
        ev["coverage"]["distinct_outcomes"],
        by_key.len(),
        known_hits.len(),
        violations.len(),
        t0.elapsed().as_secs_f64()
    );
    if n == 0 {
        eprintln!("MACHINERY: empty space");
        return 2;
    }
    if violations.is_empty() && base_failure.is_none() {
        0
    } else {
        1
    }
}

pub fn replay<P: Prop>(p: &P, path: &str) -> i32 {
    let s = match std::fs::read_to_string(path) {
        Ok(s) => s,
        Err(e) => {
            eprintln!("cannot read {path}: {e}");
            return 2;
        }
    };
    let v: serde_json::Value = match serde_json::from_str(&s) {
        Ok(v) => v,
        Err(e) => {
            eprintln!("bad replay file: {e}");
            return 2;
        }
    };
    let case: P::Case = match serde_json::from_value(v["case"].clone()) {
        Ok(c) => c,
        Err(e) => {
            eprintln!("bad case in replay file: {e}");
            return 2;
        }
    };
    let key = v["key"].as_str().unwrap_or("").to_string();
    let r = match crate::common::guarded(|| p.check(&case)) {
        Ok(r) => r,
        Err((m, l)) => {
            eprintln!("MACHINERY: harness panic at {l}: {m}");
            return 2;
        }
    };
    println!("replay of {path}: outcome={} discrepancies={}", r.outcome, r.discs.len());
    let mut hit = false;
    let keys: BTreeSet<String> = r.discs.iter().map(|d| d.key.clone()).collect();
    for d in &r.discs {
        println!("  {} :: {}", d.key, d.detail);
        if d.key == key {
            hit = true;
        }
    }
    if hit || (key.is_empty() && !keys.is_empty()) {
        println!("VIOLATION property={} replay={path}", p.id());
        1
    } else {
        println!("recorded discrepancy does not occur on this tree");
        0
    }
}


// ------------------------------------------------------------------------------------------------ stall watchdog
static PROGRESS: std::sync::atomic::AtomicU64 = std::sync::atomic::AtomicU64::new(0);
static ENUMERATING: std::sync::atomic::AtomicBool = std::sync::atomic::AtomicBool::new(false);
fn in_flight() -> &'static std::sync::Mutex<std::collections::HashMap<u64, String>> {
    static M: std::sync::OnceLock<std::sync::Mutex<std::collections::HashMap<u64, String>>> = std::sync::OnceLock::new();
    M.get_or_init(|| std::sync::Mutex::new(std::collections::HashMap::new()))
}
struct InFlight(u64);
impl InFlight {
    fn enter<C: Serialize>(c: &C) -> InFlight {
        static NEXT: std::sync::atomic::AtomicU64 = std::sync::atomic::AtomicU64::new(0);
        let id = NEXT.fetch_add(1, std::sync::atomic::Ordering::SeqCst);
        let text: String = serde_json::to_string(c).unwrap_or_default().chars().take(700).collect();
        in_flight().lock().unwrap().insert(id, text);
        InFlight(id)
    }
}
impl Drop for InFlight {
    fn drop(&mut self) {
        in_flight().lock().unwrap().remove(&self.0);
        PROGRESS.fetch_add(1, std::sync::atomic::Ordering::SeqCst);
    }
}
/// exits with the machinery code when no case finishes for VERIF_STALL_S seconds (default 300) while cases are in flight
fn stall_watchdog(id: &str) -> std::thread::JoinHandle<()> {
    let id = id.to_string();
    let limit: u64 = std::env::var("VERIF_STALL_S").ok().and_then(|v| v.parse().ok()).unwrap_or(300);
    std::thread::spawn(move || {
        let mut last = PROGRESS.load(std::sync::atomic::Ordering::SeqCst);
        let mut since = Instant::now();
        loop {
            std::thread::sleep(std::time::Duration::from_secs(2));
            let now = PROGRESS.load(std::sync::atomic::Ordering::SeqCst);
            let busy = !in_flight().lock().unwrap().is_empty();
            if now != last || !busy {
                last = now;
                since = Instant::now();
                continue;
            }
            let limit = if ENUMERATING.load(std::sync::atomic::Ordering::SeqCst) { limit.max(1) * 12 } else { limit };
            if since.elapsed().as_secs() >= limit {
                let cases: Vec<String> = in_flight().lock().unwrap().values().take(3).cloned().collect();
                eprintln!("MACHINERY: [{id}] no case finished for {limit} s; the subject does not return on (up to 3 of the cases in flight):");
                for c in cases {
                    eprintln!("  {c}");
                }
                std::process::exit(2);
            }
        }
    })
}
