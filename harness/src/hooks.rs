//! Registration of the `verif_hooks` callback of rasn-compiler: stage boundaries become scheduling points
//! on the OS thread that is running a shuttle exploration (C11), and are no-ops on every other thread.
use std::cell::Cell;
use std::sync::atomic::{AtomicU64, Ordering};

thread_local! {
    // shuttle runs all model threads as coroutines on the OS thread that called check_dfs
    static ACTIVE: Cell<bool> = const { Cell::new(false) };
}
pub static POINTS: AtomicU64 = AtomicU64::new(0);
thread_local! {
    // stage labels that are scheduling points in the current exploration (empty = all of them)
    static ONLY: Cell<&'static [&'static str]> = const { Cell::new(&[]) };
}

/// restrict the scheduling points to the given stage labels (coarser interleavings, still explored exhaustively)
pub fn set_points(labels: &'static [&'static str]) {
    ONLY.with(|o| o.set(labels));
}

fn hook(label: &'static str) {
    let only = ONLY.with(|o| o.get());
    if !only.is_empty() && !only.contains(&label) {
        return;
    }
    if ACTIVE.with(|a| a.get()) {
        POINTS.fetch_add(1, Ordering::Relaxed);
        shuttle::thread::yield_now();
    }
}

pub fn install() {
    #[cfg(feature = "hooks")]
    {
        rasn_compiler::verif_hooks::set_hook(hook);
    }
    #[cfg(not(feature = "hooks"))]
    {
        let _ = hook;
    }
}

pub fn set_active(a: bool) {
    ACTIVE.with(|x| x.set(a));
}
