//! Registration of the `verif_hooks` callback of rasn-compiler: stage boundaries become scheduling points
//! on the OS thread that is running a shuttle exploration (C11), and are no-ops on every other thread.
use std::cell::Cell;
use std::sync::atomic::{AtomicU64, Ordering};

thread_local! {
    // shuttle runs all model threads as coroutines on the OS thread that called check_dfs
    static ACTIVE: Cell<bool> = const { Cell::new(false) };
}
pub static POINTS: AtomicU64 = AtomicU64::new(0);

fn hook(_label: &'static str) {
    if ACTIVE.with(|a| a.get()) {
        POINTS.fetch_add(1, Ordering::Relaxed);
        shuttle::thread::yield_now();
    }
}

pub fn install() {
    #[cfg(feature = "hooks")]
    {
        rasn_compiler::verif_hooks::set_hook(hook);
    }
    #[cfg(not(feature = "hooks"))]
    {
        let _ = hook;
    }
}

pub fn set_active(a: bool) {
    ACTIVE.with(|x| x.set(a));
}
